(* BufThm.v — theorems about the buffer-view model (model/Buf.v). *)
From Compio.Model Require Import Base Buf.
From Compio.Thm Require Import ListFacts.

(* ---------------------------------------------------------------------- *)
(* vocabulary                                                              *)

(* a root buffer: length within capacity; fixed arrays are fully initialised *)
Definition rwf (r : root) : Prop :=
  rlen r <= rcap r /\ (rkind r = KArray -> rlen r = rcap r).

(* offset of a view in its root, and the clamp its end bounds put on a length *)
Fixpoint voff (v : view) : nat :=
  match v with
  | VBase => 0
  | VSlice v b _ => voff v + b
  | VUninit v b => voff v + b
  end.

Fixpoint vclamp (v : view) (x : nat) : nat :=
  match v with
  | VBase => x
  | VSlice v _ (Some e) => Nat.min (vclamp v x) (voff v + e)
  | VSlice v _ None => vclamp v x
  | VUninit v _ => vclamp v x
  end.

(* well-constructed in the current state: the checks of IoBufExt::slice hold;
   an Uninit was created when its buffer had [b] initialised bytes (now >= b) *)
Fixpoint wf (v : view) (r : root) : Prop :=
  match v with
  | VBase => True
  | VSlice v b e =>
      wf v r /\ (exists l, buf_len root_init v r = Ok l /\ b <= l) /\
      match e with Some x => b <= x | None => True end
  | VUninit v b => wf v r /\ exists l, buf_len root_init v r = Ok l /\ b <= l
  end.

(* the known class (D6): some Uninit layer already holds initialised bytes *)
Fixpoint uninit_filled (v : view) (r : root) : Prop :=
  match v with
  | VBase => False
  | VSlice v _ _ => uninit_filled v r
  | VUninit v b => uninit_filled v r \/ buf_len root_init v r <> Ok b
  end.

(* no Uninit layer at all *)
Fixpoint pure (v : view) : Prop :=
  match v with
  | VBase => True
  | VSlice v _ _ => pure v
  | VUninit _ _ => False
  end.

(* ---------------------------------------------------------------------- *)
(* clamp arithmetic                                                        *)

Lemma vclamp_le v x : vclamp v x <= x.
Proof.
  induction v as [|v IH b [e|]|v IH b]; cbn [vclamp]; lia.
Qed.

Lemma vclamp_mono v x y : x <= y -> vclamp v x <= vclamp v y.
Proof.
  intros H. induction v as [|v IH b [e|]|v IH b]; cbn [vclamp]; lia.
Qed.

Lemma vclamp_fix v x y : x <= vclamp v y -> vclamp v x = x.
Proof.
  induction v as [|v IH b [e|]|v IH b]; cbn [vclamp]; lia.
Qed.

Lemma vclamp_open v x y : vclamp v x < vclamp v y -> vclamp v x = x.
Proof.
  induction v as [|v IH b [e|]|v IH b]; cbn [vclamp]; lia.
Qed.

(* ---------------------------------------------------------------------- *)
(* sub_range                                                               *)

Definition rel_end (e : option nat) (l : nat) : nat :=
  Nat.min (match e with Some x => x | None => l end) l.

Lemma sub_range_ok o l b e o' l' :
  sub_range (o, l) b e = Ok (o', l') ->
  b <= rel_end e l /\ o' = o + b /\ l' = rel_end e l - b.
Proof.
  unfold sub_range, rel_end.
  destruct (Nat.leb_spec b (Nat.min (match e with Some x => x | None => l end) l)) as [H|H];
    intros E; inversion E; subst; auto.
Qed.

Lemma sub_range_intro o l b e :
  b <= rel_end e l -> sub_range (o, l) b e = Ok (o + b, rel_end e l - b).
Proof.
  unfold sub_range, rel_end. intros H.
  destruct (Nat.leb_spec b (Nat.min (match e with Some x => x | None => l end) l)); [reflexivity|lia].
Qed.

Lemma rel_end_abs v b e l x :
  voff v + l = vclamp v x ->
  voff v + rel_end e l = vclamp (VSlice v b e) x.
Proof.
  unfold rel_end. destruct e as [e|]; cbn [vclamp]; lia.
Qed.

(* ---------------------------------------------------------------------- *)
(* as_init                                                                 *)

Notation r_buf_len := (buf_len root_init).

(* whenever as_init answers, it answers (voff, clamp(rlen) - voff) *)
Lemma as_init_char v r o l :
  r_as_init v r = Ok (o, l) -> o = voff v /\ o + l = vclamp v (rlen r).
Proof.
  revert o l. unfold r_as_init.
  induction v as [|v IH b e|v IH b]; intros o l; cbn [as_init voff vclamp].
  - unfold root_init. intros E; inversion E; subst. lia.
  - destruct (as_init root_init v r) as [[o1 l1]|c] eqn:E1; cbn [rbind]; [|discriminate].
    destruct (IH _ _ eq_refl) as [-> H1]. intros E.
    apply sub_range_ok in E. destruct E as (Hb & -> & ->).
    pose proof (rel_end_abs v b e l1 (rlen r) H1) as HA. cbn [vclamp] in HA.
    split; [reflexivity|]. lia.
  - destruct (as_init root_init v r) as [[o1 l1]|c] eqn:E1; cbn [rbind]; [|discriminate].
    destruct (IH _ _ eq_refl) as [-> H1]. intros E.
    apply sub_range_ok in E. destruct E as (Hb & -> & ->).
    pose proof (rel_end_abs v b None l1 (rlen r) H1) as HA. cbn [vclamp] in HA.
    split; [reflexivity|]. lia.
Qed.

Lemma buf_len_as_init v r l :
  r_buf_len v r = Ok l <-> exists o, r_as_init v r = Ok (o, l).
Proof.
  unfold buf_len, r_as_init. split.
  - destruct (as_init root_init v r) as [[o l0]|c]; cbn [rbind snd]; intros E; inversion E; subst.
    eauto.
  - intros [o ->]. reflexivity.
Qed.

(* a well-constructed view always reports its initialised bytes *)
Lemma wf_as_init v r :
  wf v r -> exists l, r_as_init v r = Ok (voff v, l) /\ voff v + l = vclamp v (rlen r).
Proof.
  unfold r_as_init.
  induction v as [|v IH b e|v IH b]; cbn [wf as_init voff vclamp].
  - intros _. exists (rlen r). split; [reflexivity|lia].
  - intros (Hw & (l0 & Hl & Hb) & He).
    destruct (IH Hw) as (l1 & E1 & H1).
    apply buf_len_as_init in Hl. destruct Hl as [o0 Hl]. unfold r_as_init in Hl.
    rewrite E1 in Hl. inversion Hl; subst o0 l0.
    rewrite E1. cbn [rbind].
    assert (Hen : b <= rel_end e l1) by (unfold rel_end; destruct e; lia).
    rewrite (sub_range_intro _ _ _ _ Hen). eexists. split; [reflexivity|].
    pose proof (rel_end_abs v b e l1 (rlen r) H1) as HA. cbn [vclamp] in HA. lia.
  - intros (Hw & (l0 & Hl & Hb)).
    destruct (IH Hw) as (l1 & E1 & H1).
    apply buf_len_as_init in Hl. destruct Hl as [o0 Hl]. unfold r_as_init in Hl.
    rewrite E1 in Hl. inversion Hl; subst o0 l0.
    rewrite E1. cbn [rbind].
    assert (Hen : b <= rel_end None l1) by (unfold rel_end; lia).
    rewrite (sub_range_intro _ _ _ _ Hen). eexists. split; [reflexivity|].
    pose proof (rel_end_abs v b None l1 (rlen r) H1) as HA. cbn [vclamp] in HA. lia.
Qed.

(* ---------------------------------------------------------------------- *)
(* the view contract                                                       *)

Lemma buf_len_det v r a b : r_buf_len v r = Ok a -> r_buf_len v r = Ok b -> a = b.
Proof. intros H1 H2. rewrite H1 in H2. inversion H2. reflexivity. Qed.

Lemma wf_buf_len v r : wf v r -> exists l, r_buf_len v r = Ok l /\ voff v + l = vclamp v (rlen r).
Proof.
  intros H. destruct (wf_as_init v r H) as (l & E & HA). exists l. split; [|exact HA].
  apply buf_len_as_init. eauto.
Qed.

Lemma not_filled_uninit v b r :
  wf (VUninit v b) r -> ~ uninit_filled (VUninit v b) r ->
  ~ uninit_filled v r /\ r_buf_len v r = Ok b.
Proof.
  cbn [wf uninit_filled]. intros (Hw & l & Hl & Hb) Hn. split; [tauto|].
  destruct (Nat.eq_dec l b) as [->|Hne]; [exact Hl|].
  exfalso. apply Hn. right. rewrite Hl. intros E. inversion E. contradiction.
Qed.

(* invariant behind the contract: both ranges start at voff, and end at the
   clamped root length / root capacity *)
Lemma view_inv v r :
  rwf r -> wf v r -> ~ uninit_filled v r ->
  exists l c, r_as_init v r = Ok (voff v, l) /\ r_as_uninit v r = Ok (voff v, c) /\
    voff v + l = vclamp v (rlen r) /\ voff v + c = vclamp v (rcap r).
Proof.
  intros [Hlc _]. unfold r_as_init, r_as_uninit.
  induction v as [|v IH b e|v IH b]; intros Hw Hn.
  - exists (rlen r), (rcap r). cbn. repeat split; lia.
  - pose proof (wf_as_init _ _ Hw) as (l & EI & HI). unfold r_as_init in EI.
    cbn [wf uninit_filled] in Hw, Hn. destruct Hw as (Hw & (l0 & Hl0 & Hb) & He).
    destruct (IH Hw Hn) as (l1 & c1 & E1 & E2 & H1 & H2).
    assert (l0 = l1) as ->.
    { apply (buf_len_det v r); [exact Hl0|]. apply buf_len_as_init. eexists. exact E1. }
    assert (Hlc1 : l1 <= c1) by (pose proof (vclamp_mono v _ _ Hlc); lia).
    assert (Hen : b <= rel_end e c1) by (unfold rel_end; destruct e; lia).
    exists l, (rel_end e c1 - b). split; [exact EI|]. split.
    + cbn [as_uninit]. rewrite E2. cbn [rbind]. rewrite (sub_range_intro _ _ _ _ Hen). reflexivity.
    + split; [exact HI|].
      pose proof (rel_end_abs v b e c1 (rcap r) H2) as HA. cbn [voff]. lia.
  - destruct (not_filled_uninit _ _ _ Hw Hn) as (Hn' & Hlen).
    cbn [wf] in Hw. destruct Hw as (Hw & _).
    destruct (IH Hw Hn') as (l1 & c1 & E1 & E2 & H1 & H2).
    assert (l1 = b) as ->.
    { apply (buf_len_det v r); [|exact Hlen]. apply buf_len_as_init. eexists. exact E1. }
    assert (Hlc1 : b <= c1) by (pose proof (vclamp_mono v _ _ Hlc); lia).
    assert (EI : as_init root_init (VUninit v b) r = Ok (voff v + b, 0)).
    { cbn [as_init]. rewrite E1. cbn [rbind]. unfold sub_range.
      rewrite Nat.min_id, Nat.leb_refl, Nat.sub_diag. reflexivity. }
    exists 0, (c1 - b). cbn [voff vclamp]. split; [exact EI|]. split.
    + cbn [as_uninit]. unfold buf_len. rewrite EI. cbn [rbind snd]. rewrite E2. cbn [rbind].
      unfold sub_range. rewrite Nat.min_id.
      destruct (Nat.leb_spec b c1); [|lia]. cbn [rbind Nat.leb].
      rewrite Nat.add_0_r, Nat.sub_0_r. reflexivity.
    + lia.
Qed.

Theorem view_contract r v :
  rwf r -> wf v r -> ~ uninit_filled v r ->
  exists o l c,
    r_as_init v r = Ok (o, l) /\ r_as_uninit v r = Ok (o, c) /\
    l <= c /\ o + c <= rcap r /\ o + l <= rlen r /\ rlen r <= rcap r.
Proof.
  intros Hr Hw Hn. destruct (view_inv v r Hr Hw Hn) as (l & c & E1 & E2 & H1 & H2).
  destruct Hr as [Hlc _].
  exists (voff v), l, c. repeat split; auto.
  - pose proof (vclamp_mono v _ _ Hlc). lia.
  - pose proof (vclamp_le v (rcap r)). lia.
  - pose proof (vclamp_le v (rlen r)). lia.
Qed.

(* ---------------------------------------------------------------------- *)
(* views only look at the root's length and capacity                        *)

Lemma as_init_ext v r r' : rlen r' = rlen r -> r_as_init v r' = r_as_init v r.
Proof.
  intros H. unfold r_as_init.
  induction v as [|v IH b e|v IH b]; cbn [as_init].
  - unfold root_init. rewrite H. reflexivity.
  - rewrite IH. reflexivity.
  - rewrite IH. reflexivity.
Qed.

Lemma buf_len_ext v r r' : rlen r' = rlen r -> r_buf_len v r' = r_buf_len v r.
Proof.
  intros H. unfold buf_len. pose proof (as_init_ext v r r' H) as E. unfold r_as_init in E.
  rewrite E. reflexivity.
Qed.

Lemma as_uninit_ext v r r' :
  rlen r' = rlen r -> rcap r' = rcap r -> r_as_uninit v r' = r_as_uninit v r.
Proof.
  intros H Hc. unfold r_as_uninit.
  induction v as [|v IH b e|v IH b]; cbn [as_uninit].
  - unfold root_uninit. rewrite Hc. reflexivity.
  - rewrite IH. reflexivity.
  - rewrite IH. rewrite (buf_len_ext (VUninit v b) r r' H). reflexivity.
Qed.

Lemma wf_mono v r r' : rlen r <= rlen r' -> wf v r -> wf v r'.
Proof.
  intros H. induction v as [|v IH b e|v IH b]; cbn [wf]; [auto| |].
  - intros (Hw & (l & Hl & Hb) & He). specialize (IH Hw). split; [exact IH|]. split; [|exact He].
    destruct (wf_buf_len v r Hw) as (l1 & E1 & H1).
    destruct (wf_buf_len v r' IH) as (l2 & E2 & H2).
    rewrite (buf_len_det _ _ _ _ Hl E1) in Hb.
    exists l2. split; [exact E2|]. pose proof (vclamp_mono v _ _ H). lia.
  - intros (Hw & (l & Hl & Hb)). specialize (IH Hw). split; [exact IH|].
    destruct (wf_buf_len v r Hw) as (l1 & E1 & H1).
    destruct (wf_buf_len v r' IH) as (l2 & E2 & H2).
    rewrite (buf_len_det _ _ _ _ Hl E1) in Hb.
    exists l2. split; [exact E2|]. pose proof (vclamp_mono v _ _ H). lia.
Qed.

Lemma pure_not_filled v r : pure v -> ~ uninit_filled v r.
Proof. induction v as [|v IH b e|v IH b]; cbn [pure uninit_filled]; tauto. Qed.

(* ---------------------------------------------------------------------- *)
(* set_len through a view, and the fill theorem                            *)

Lemma set_len_char v k r : r_set_len v k r = root_set_len r (voff v + k).
Proof.
  unfold r_set_len. revert k.
  induction v as [|v IH b e|v IH b]; intros k; cbn [set_len voff].
  - reflexivity.
  - rewrite IH. f_equal. lia.
  - rewrite IH. f_equal. lia.
Qed.

Lemma root_set_len_grow r n :
  rwf r -> rlen r < n -> n <= rcap r -> root_set_len r n = Ok (with_len r n).
Proof.
  intros [Hlc Ha] H1 H2. unfold root_set_len.
  destruct (rkind r) eqn:K.
  - destruct (Nat.leb_spec n (rcap r)); [reflexivity|lia].
  - specialize (Ha eq_refl). lia.
  - destruct (Nat.ltb_spec (rlen r) n); [|lia]. destruct (Nat.leb_spec n (rcap r)); [reflexivity|lia].
  - destruct (Nat.ltb_spec (rlen r) n); [|lia]. destruct (Nat.leb_spec n (rcap r)); [reflexivity|lia].
  - destruct (Nat.leb_spec n (rcap r)); [reflexivity|lia].
  - rewrite Nat.min_l by lia. reflexivity.
Qed.

Lemma rcap_le_cells r : rcap r <= length (rcells r).
Proof. unfold rcap. destruct (rkind r); lia. Qed.

Lemma rcap_with_len r n : rcap (with_len r n) = rcap r.
Proof. reflexivity. Qed.

Lemma rcap_same r r' :
  rkind r' = rkind r -> length (rcells r') = length (rcells r) -> rlim r' = rlim r -> rcap r' = rcap r.
Proof. intros K L M. unfold rcap. rewrite K, L, M. reflexivity. Qed.

Lemma root_write_props r o bs :
  o + length bs <= rcap r ->
  rlen (root_write o bs r) = rlen r /\ rcap (root_write o bs r) = rcap r /\
  rkind (root_write o bs r) = rkind r.
Proof.
  intros H. pose proof (rcap_le_cells r) as Hc.
  split; [reflexivity|]. split; [|reflexivity].
  apply rcap_same; [reflexivity| |reflexivity].
  unfold root_write, with_cells. cbn [rcells]. apply write_at_length. lia.
Qed.

Theorem fill_visible r v bs o l c :
  rwf r -> wf v r -> ~ uninit_filled v r ->
  r_as_init v r = Ok (o, l) -> r_as_uninit v r = Ok (o, c) -> length bs <= c ->
  exists r',
    r_fill v bs r = Ok r' /\
    rkind r' = rkind r /\
    rcells r' = write_at (rcells r) o bs /\
    rlen r' = Nat.max (rlen r) (o + length bs) /\
    r_as_init v r' = Ok (o, Nat.max l (length bs)) /\
    rwf r' /\ wf v r' /\ rcap r' = rcap r.
Proof.
  intros Hr Hw Hn EI EU Hk.
  destruct (view_inv v r Hr Hw Hn) as (l0 & c0 & E1 & E2 & H1 & H2).
  rewrite E1 in EI. inversion EI; subst o l0. clear EI.
  rewrite E2 in EU. inversion EU; subst c0. clear EU.
  pose proof Hr as [Hlc Harr].
  pose proof (vclamp_le v (rcap r)) as Hcap.
  pose proof (vclamp_le v (rlen r)) as Hlen.
  assert (Hfit : voff v + length bs <= rcap r) by lia.
  destruct (root_write_props r (voff v) bs Hfit) as (W1 & W2 & W3).
  set (r1 := root_write (voff v) bs r) in *.
  assert (Hr1 : rwf r1) by (split; [lia|rewrite W3, W1, W2; exact Harr]).
  unfold r_fill. rewrite E2. cbn [rbind fst]. fold r1.
  unfold r_advance_to, advance_to.
  assert (EL : r_buf_len v r1 = Ok l).
  { rewrite (buf_len_ext v r r1 W1). apply buf_len_as_init. eexists. exact E1. }
  rewrite EL. cbn [rbind].
  destruct (Nat.ltb_spec l (length bs)) as [Hlt|Hge].
  - (* the length grows: the view is open, so the root grows to o + k *)
    assert (Hopen : vclamp v (rlen r) = rlen r) by (apply (vclamp_open v _ (rcap r)); lia).
    pose proof (set_len_char v (length bs) r1) as ES. unfold r_set_len in ES. rewrite ES.
    rewrite (root_set_len_grow r1 (voff v + length bs) Hr1) by lia.
    eexists. split; [reflexivity|].
    assert (Hmax : Nat.max (rlen r) (voff v + length bs) = voff v + length bs) by lia.
    set (r2 := with_len r1 (voff v + length bs)).
    assert (R2 : rlen r2 = voff v + length bs) by reflexivity.
    assert (Hwf2 : wf v r2) by (apply (wf_mono v r); [rewrite R2; lia|exact Hw]).
    assert (C2 : rcap r2 = rcap r) by (unfold r2, with_len, rcap; cbn; exact W2).
    split; [exact W3|]. split; [reflexivity|]. split; [rewrite Hmax; exact R2|].
    split; [|split; [|split; [exact Hwf2|exact C2]]].
    + destruct (wf_as_init v r2 Hwf2) as (l2 & E3 & H3). rewrite E3. f_equal. f_equal.
      rewrite R2 in H3. rewrite (vclamp_fix v _ (rcap r)) in H3 by lia. lia.
    + split; [rewrite R2, C2; lia|].
      intros K. change (rkind r2) with (rkind r1) in K. rewrite W3 in K. specialize (Harr K). lia.
  - (* already covered: advance_to does nothing *)
    eexists. split; [reflexivity|].
    assert (Hwf1 : wf v r1) by (apply (wf_mono v r); [rewrite W1; lia|exact Hw]).
    split; [exact W3|]. split; [reflexivity|]. split; [rewrite W1; lia|].
    split; [|split; [exact Hr1|split; [exact Hwf1|exact W2]]].
    pose proof (as_init_ext v r r1 W1) as E3. rewrite E3, E1. f_equal. f_equal. lia.
Qed.

(* the statement of the property: the written bytes are visible as initialised
   where they were written, nothing else moves *)
Theorem fill_visible_full r v bs o c :
  rwf r -> wf v r -> ~ uninit_filled v r ->
  r_as_uninit v r = Ok (o, c) -> length bs <= c ->
  exists r',
    r_fill v bs r = Ok r' /\ rkind r' = rkind r /\
    rcells r' = write_at (rcells r) o bs /\
    rlen r' = Nat.max (rlen r) (o + length bs) /\
    o + length bs <= rlen r' /\
    sub_list (rcells r') o (length bs) = bs /\
    firstn o (rcells r') = firstn o (rcells r) /\
    skipn (o + length bs) (rcells r') = skipn (o + length bs) (rcells r) /\
    length (rcells r') = length (rcells r) /\ rcap r' = rcap r /\
    rwf r' /\ wf v r' /\
    exists l, r_as_init v r = Ok (o, l) /\ r_as_init v r' = Ok (o, Nat.max l (length bs)).
Proof.
  intros Hr Hw Hn EU Hk.
  destruct (view_contract r v Hr Hw Hn) as (o0 & l & c0 & E1 & E2 & Hlc & Hcap & Hlen & _).
  rewrite E2 in EU. inversion EU; subst o0 c0. clear EU.
  destruct (fill_visible r v bs o l c Hr Hw Hn E1 E2 Hk) as (r' & F & K & C & L & I & Hr' & Hw' & Hc').
  pose proof (rcap_le_cells r) as Hcells.
  assert (Ho : o <= length (rcells r)) by lia.
  exists r'. split; [exact F|]. split; [exact K|]. split; [exact C|]. split; [exact L|].
  split; [lia|]. rewrite C.
  split; [apply write_at_read_back; exact Ho|].
  split; [apply write_at_firstn; exact Ho|].
  split; [apply write_at_skipn; exact Ho|].
  split; [apply write_at_length; lia|]. split; [exact Hc'|].
  split; [exact Hr'|]. split; [exact Hw'|]. exists l. split; [exact E1|exact I].
Qed.

(* ---------------------------------------------------------------------- *)
(* arbitrary sequences of fills through one (Uninit-free) view              *)

Lemma as_uninit_pure_ext v r r' :
  pure v -> rcap r' = rcap r -> r_as_uninit v r' = r_as_uninit v r.
Proof.
  intros Hp Hc. unfold r_as_uninit.
  induction v as [|v IH b e|v IH b]; cbn [pure as_uninit] in *.
  - unfold root_uninit. rewrite Hc. reflexivity.
  - rewrite (IH Hp). reflexivity.
  - contradiction.
Qed.

Theorem fill_sequence v : pure v -> forall bss r o c,
  rwf r -> wf v r -> r_as_uninit v r = Ok (o, c) ->
  Forall (fun bs => length bs <= c) bss ->
  exists r',
    r_fills v bss r = Ok r' /\ rkind r' = rkind r /\
    rcells r' = fold_left (fun cs bs => write_at cs o bs) bss (rcells r) /\
    rlen r' = fold_left (fun n bs => Nat.max n (o + length bs)) bss (rlen r) /\
    rwf r' /\ wf v r' /\ r_as_uninit v r' = Ok (o, c).
Proof.
  intros Hp bss. induction bss as [|bs t IH]; intros r o c Hr Hw EU Hall.
  - exists r. cbn. repeat split; auto; apply Hr.
  - inversion Hall as [|? ? Hk Ht]; subst.
    pose proof (pure_not_filled v r Hp) as Hn.
    destruct (fill_visible_full r v bs o c Hr Hw Hn EU Hk)
      as (r1 & F & K & C & L & _ & _ & _ & _ & _ & Hcap1 & Hr1 & Hw1 & _).
    assert (EU1 : r_as_uninit v r1 = Ok (o, c)).
    { rewrite (as_uninit_pure_ext v r r1 Hp); [exact EU|exact Hcap1]. }
    destruct (IH r1 o c Hr1 Hw1 EU1 Ht) as (r' & F' & K' & C' & L' & Hr' & Hw' & EU').
    exists r'. cbn [r_fills fold_left]. rewrite F. cbn [rbind].
    split; [exact F'|]. split; [congruence|]. rewrite <- C, <- L. auto.
Qed.

(* ---------------------------------------------------------------------- *)
(* vectored buffers: Vec<T> / [T; N] of root members, unsliced               *)

Definition tlen (ms : list root) : nat := fold_right (fun m a => rlen m + a) 0 ms.
Definition tcap (ms : list root) : nat := fold_right (fun m a => rcap m + a) 0 ms.

(* members filled in order: a member that is not full is followed by empty ones
   (the states a sequence of vectored reads into fresh members goes through) *)
Fixpoint seqp (ms : list root) : Prop :=
  match ms with
  | [] => True
  | m :: r => (rlen m = rcap m /\ seqp r) \/ Forall (fun x => rlen x = 0) r
  end.

(* what a vectored read of [bs] followed by the recording must produce: every
   member holds its chunk at offset 0, its initialised length covers the chunk,
   nothing is hidden, nothing else moves *)
Fixpoint vspec (ms : list root) (bs : list byte) : list root :=
  match ms with
  | [] => []
  | m :: r =>
    mkroot (rkind m) (write_at (rcells m) 0 (firstn (rcap m) bs))
           (Nat.max (rlen m) (Nat.min (length bs) (rcap m))) (rlim m)
      :: vspec r (skipn (rcap m) bs)
  end.

(* the writes alone *)
Fixpoint swrite (ms : list root) (bs : list byte) : list root :=
  match ms with
  | [] => []
  | m :: r => root_write 0 (firstn (rcap m) bs) m :: swrite r (skipn (rcap m) bs)
  end.

Lemma write_member_app pre m r o bs :
  write_member (pre ++ m :: r) (length pre) o bs = pre ++ root_write o bs m :: r.
Proof.
  induction pre as [|x pre IH]; cbn [app length write_member]; [reflexivity|].
  rewrite IH. reflexivity.
Qed.

Lemma scatter_swrite ms : forall pre bs,
  scatter (uninit_ranges (length pre) ms) bs (pre ++ ms) = pre ++ swrite ms bs.
Proof.
  induction ms as [|m r IH]; intros pre bs; cbn [uninit_ranges scatter swrite]; [reflexivity|].
  rewrite write_member_app.
  replace (pre ++ root_write 0 (firstn (rcap m) bs) m :: r)
    with ((pre ++ [root_write 0 (firstn (rcap m) bs) m]) ++ r) by (rewrite <- app_assoc; reflexivity).
  replace (S (length pre)) with (length (pre ++ [root_write 0 (firstn (rcap m) bs) m]))
    by (rewrite app_length; cbn; lia).
  rewrite IH. rewrite <- app_assoc. reflexivity.
Qed.

Lemma sum_init i ms : sum_len (init_ranges i ms) = tlen ms.
Proof.
  revert i. induction ms as [|m r IH]; intros i; cbn [init_ranges sum_len tlen fold_right]; [reflexivity|].
  unfold sum_len in IH. rewrite IH. reflexivity.
Qed.

Lemma swrite_tlen ms : forall bs, tlen (swrite ms bs) = tlen ms.
Proof.
  induction ms as [|m r IH]; intros bs; cbn [swrite tlen fold_right]; [reflexivity|].
  unfold tlen in IH. rewrite IH. reflexivity.
Qed.

Lemma default_set_len_0 ms : default_set_len ms 0 = Ok ms.
Proof. destruct ms; reflexivity. Qed.

Lemma with_len_same r : with_len r (rlen r) = r.
Proof. destruct r; reflexivity. Qed.

(* set_len(n) with rlen <= n <= rcap sets the length to n for every kind *)
Lemma root_set_len_ge r n :
  rwf r -> rlen r <= n -> n <= rcap r -> root_set_len r n = Ok (with_len r n).
Proof.
  intros Hr H1 H2. destruct (Nat.eq_dec (rlen r) n) as [<-|Hne].
  - rewrite with_len_same. unfold root_set_len. destruct Hr as [Hlc _].
    destruct (rkind r); try rewrite Nat.ltb_irrefl;
      try (destruct (Nat.leb_spec (rlen r) (rcap r)); [|lia]);
      try rewrite (Nat.min_l (rlen r) (rcap r)) by lia;
      try rewrite with_len_same; reflexivity.
  - apply root_set_len_grow; [exact Hr|lia|exact H2].
Qed.

Lemma firstn_cap_len (bs : list byte) cap :
  length (firstn cap bs) = Nat.min (length bs) cap.
Proof. rewrite firstn_length. lia. Qed.

Lemma empty_seqp r : Forall (fun x => rlen x = 0) r -> seqp r.
Proof.
  induction r as [|m r IH]; intros H; cbn [seqp]; [exact I|].
  inversion H; subst. right. assumption.
Qed.

Lemma empty_tlen r : Forall (fun x => rlen x = 0) r -> tlen r = 0.
Proof.
  induction r as [|m r IH]; intros H; cbn [tlen fold_right]; [reflexivity|].
  inversion H; subst. unfold tlen in IH. rewrite IH by assumption. lia.
Qed.

Lemma tlen_le_tcap ms : Forall rwf ms -> tlen ms <= tcap ms.
Proof.
  induction ms as [|m r IH]; intros H; cbn [tlen tcap fold_right]; [lia|].
  inversion H as [|? ? [Hm _] Hr]; subst. specialize (IH Hr). unfold tlen, tcap in IH. lia.
Qed.

(* core: after the writes, the recording step yields exactly vspec *)
Lemma record_seq ms : forall bs,
  Forall rwf ms -> seqp ms -> length bs <= tcap ms ->
  (if tlen ms <? length bs then default_set_len (swrite ms bs) (length bs)
   else Ok (swrite ms bs)) = Ok (vspec ms bs).
Proof.
  induction ms as [|m r IH]; intros bs Hwf Hseq Hfit.
  - cbn. destruct (length bs); reflexivity.
  - inversion Hwf as [|? ? Hm Hr]; subst. pose proof Hm as [Hmlc _].
    cbn [tlen tcap fold_right] in *. fold (tlen r) in *. fold (tcap r) in *.
    pose proof (tlen_le_tcap r Hr) as Hrlc.
    set (n := length bs) in *. set (cap := rcap m) in *.
    set (bs' := skipn cap bs).
    assert (Hn' : length bs' = n - cap) by (unfold bs'; rewrite skipn_length; reflexivity).
    assert (Hseq_r : seqp r) by (destruct Hseq as [[_ H]|H]; [exact H|apply empty_seqp; exact H]).
    assert (Hfit_r : length bs' <= tcap r) by lia.
    specialize (IH bs' Hr Hseq_r Hfit_r).
    cbn [swrite vspec]. fold cap. fold bs'. fold n.
    assert (Hcapw : rcap (root_write 0 (firstn cap bs) m) = cap).
    { apply root_write_props. rewrite firstn_cap_len. fold n. fold cap in Hmlc. unfold cap. lia. }
    destruct (Nat.ltb_spec (rlen m + tlen r) n) as [Hlt|Hge].
    + (* set_len runs *)
      cbn [default_set_len]. destruct (Nat.eqb_spec n 0) as [H0|_]; [lia|].
      rewrite Hcapw.
      assert (Hk : rlen m <= Nat.min cap n /\ Nat.min cap n <= cap).
      { destruct Hseq as [[Hfull _]|Hemp]; [fold cap in Hfull; lia|].
        rewrite (empty_tlen r Hemp) in Hlt. fold cap in Hmlc. lia. }
      assert (Hm' : rwf (root_write 0 (firstn cap bs) m)).
      { destruct Hm as [A B]. split; [rewrite Hcapw; exact A|]. intros K. rewrite Hcapw. apply B. exact K. }
      assert (Hlenw : rlen (root_write 0 (firstn cap bs) m) = rlen m) by reflexivity.
      rewrite (root_set_len_ge _ (Nat.min cap n) Hm') by (rewrite ?Hcapw, ?Hlenw; lia).
      cbn [rbind].
      replace (n - Nat.min cap n) with (length bs') by lia.
      assert (Hrest : default_set_len (swrite r bs') (length bs') = Ok (vspec r bs')).
      { destruct (Nat.ltb_spec (tlen r) (length bs')) as [H1|H1]; [exact IH|].
        destruct Hseq as [[Hfull _]|Hemp]; [fold cap in Hfull; lia|].
        rewrite (empty_tlen r Hemp) in H1. assert (length bs' = 0) as -> by lia.
        rewrite default_set_len_0. exact IH. }
      rewrite Hrest. cbn [rbind]. f_equal. f_equal.
      unfold with_len, root_write, with_cells. cbn. f_equal. lia.
    + (* nothing to record: every chunk already lies inside the initialised part *)
      assert (Hrest : swrite r bs' = vspec r bs').
      { destruct (Nat.ltb_spec (tlen r) (length bs')) as [H1|H1]; [|inversion IH; reflexivity].
        destruct Hseq as [[Hfull _]|Hemp]; [fold cap in Hfull; lia|].
        rewrite (empty_tlen r Hemp) in *. fold cap in Hmlc. lia. }
      rewrite Hrest. f_equal. f_equal.
      unfold root_write, with_cells. f_equal.
      destruct Hseq as [[Hfull _]|Hemp]; [fold cap in Hfull; lia|].
      rewrite (empty_tlen r Hemp) in Hge. lia.
Qed.

Theorem vfill_seq ms bs :
  Forall rwf ms -> seqp ms -> length bs <= tcap ms ->
  vfill CList WBase bs ms = Ok (vspec ms bs).
Proof.
  intros Hwf Hseq Hfit. unfold vfill. cbn [iter_uninit rbind].
  pose proof (scatter_swrite ms [] bs) as ES. cbn [length app] in ES. rewrite ES.
  unfold advance_vec_to, total_len. cbn [iter_slice rbind].
  rewrite sum_init, swrite_tlen. cbn [vset_len container_set_len].
  exact (record_seq ms bs Hwf Hseq Hfit).
Qed.

Lemma vspec_member_cap (m : root) (bs : list byte) len :
  rcap (mkroot (rkind m) (write_at (rcells m) 0 (firstn (rcap m) bs)) len (rlim m)) = rcap m.
Proof.
  apply rcap_same; [reflexivity| |reflexivity]. cbn [rcells].
  apply write_at_length. rewrite firstn_cap_len. pose proof (rcap_le_cells m). lia.
Qed.

Lemma vspec_tcap ms : forall bs, tcap (vspec ms bs) = tcap ms.
Proof.
  induction ms as [|m r IH]; intros bs; cbn [vspec tcap fold_right]; [reflexivity|].
  unfold tcap in IH. rewrite IH. f_equal. apply vspec_member_cap.
Qed.

Lemma vspec_wf ms : forall bs, Forall rwf ms -> Forall rwf (vspec ms bs).
Proof.
  induction ms as [|m r IH]; intros bs H; cbn [vspec]; [constructor|].
  inversion H as [|? ? [Hlc Ha] Hr]; subst. constructor; [|apply IH; exact Hr].
  assert (Hcap : rcap (mkroot (rkind m) (write_at (rcells m) 0 (firstn (rcap m) bs))
                        (Nat.max (rlen m) (Nat.min (length bs) (rcap m))) (rlim m)) = rcap m)
    by apply vspec_member_cap.
  unfold rwf. rewrite Hcap. cbn [rlen rkind]. split; [lia|].
  intros K. specialize (Ha K). lia.
Qed.

Lemma vspec_nil_len r : Forall (fun x => rlen x = 0) r -> Forall (fun x => rlen x = 0) (vspec r []).
Proof.
  induction r as [|m r IH]; intros H; cbn [vspec]; [constructor|].
  inversion H; subst. constructor; [cbn; lia|].
  rewrite skipn_nil. apply IH. assumption.
Qed.

Lemma vspec_seq ms : forall bs, Forall rwf ms -> seqp ms -> seqp (vspec ms bs).
Proof.
  induction ms as [|m r IH]; intros bs Hwf Hseq; cbn [vspec seqp]; [exact I|].
  inversion Hwf as [|? ? [Hlc _] Hr]; subst.
  assert (Hcap : rcap (mkroot (rkind m) (write_at (rcells m) 0 (firstn (rcap m) bs))
                        (Nat.max (rlen m) (Nat.min (length bs) (rcap m))) (rlim m)) = rcap m)
    by apply vspec_member_cap.
  destruct Hseq as [[Hfull Hs]|Hemp].
  - left. split; [rewrite Hcap; cbn; lia|apply IH; assumption].
  - destruct (Nat.le_gt_cases (rcap m) (length bs)) as [Hge|Hlt].
    + left. split; [rewrite Hcap; cbn; lia|]. apply IH; [assumption|apply empty_seqp; assumption].
    + right. rewrite skipn_all2 by lia. apply vspec_nil_len. assumption.
Qed.

Theorem vfill_sequence : forall bss ms,
  Forall rwf ms -> seqp ms -> Forall (fun bs => length bs <= tcap ms) bss ->
  vfills bss ms = Ok (fold_left vspec bss ms) /\
  Forall rwf (fold_left vspec bss ms) /\ seqp (fold_left vspec bss ms).
Proof.
  induction bss as [|bs t IH]; intros ms Hwf Hseq Hall; cbn [vfills fold_left].
  - auto.
  - inversion Hall as [|? ? Hk Ht]; subst.
    rewrite (vfill_seq ms bs Hwf Hseq Hk). cbn [rbind].
    apply IH; [apply vspec_wf; exact Hwf|apply vspec_seq; assumption|].
    rewrite vspec_tcap. exact Ht.
Qed.

(* the known class of vectored buffers: members not in sequential-fill order *)
Definition vec_known (ms : list root) : Prop := ~ seqp ms.

Lemma seqp_dec ms : {seqp ms} + {~ seqp ms}.
Proof.
  induction ms as [|m r IH]; cbn [seqp]; [left; exact I|].
  destruct (Forall_dec (fun x => rlen x = 0) (fun x => Nat.eq_dec (rlen x) 0) r) as [He|He];
    [left; right; exact He|].
  destruct (Nat.eq_dec (rlen m) (rcap m)) as [Hf|Hf]; [|right; tauto].
  destruct IH as [Hs|Hs]; [left; left; split; assumption|right; tauto].
Qed.

Theorem vfill_not_known ms bs :
  Forall rwf ms -> ~ vec_known ms -> length bs <= tcap ms ->
  vfill CList WBase bs ms = Ok (vspec ms bs) /\
  Forall rwf (vspec ms bs) /\ ~ vec_known (vspec ms bs) /\ tcap (vspec ms bs) = tcap ms.
Proof.
  intros Hwf Hk Hfit. unfold vec_known in *.
  destruct (seqp_dec ms) as [Hs|Hs]; [|contradiction].
  split; [apply vfill_seq; assumption|]. split; [apply vspec_wf; assumption|].
  split; [|apply vspec_tcap]. intros Hn. apply Hn. apply vspec_seq; assumption.
Qed.

(* ---------------------------------------------------------------------- *)
(* the appending protocol of Uninit: fills recorded with advance(k)          *)

Lemma uninit_char v b r :
  rwf r -> pure v -> wf (VUninit v b) r -> vclamp v (rlen r) = rlen r ->
  r_as_init (VUninit v b) r = Ok (voff v + b, rlen r - (voff v + b)) /\
  r_as_uninit (VUninit v b) r = Ok (rlen r, vclamp v (rcap r) - rlen r) /\
  voff v + b <= rlen r /\ rlen r <= vclamp v (rcap r).
Proof.
  intros Hr Hp Hw Hopen. pose proof Hr as [Hlc _].
  pose proof Hw as (Hwv & l0 & Hl0 & Hb).
  destruct (view_inv v r Hr Hwv (pure_not_filled v r Hp)) as (l1 & c1 & E1 & E2 & H1 & H2).
  assert (l0 = l1) as ->.
  { apply (buf_len_det v r); [exact Hl0|]. apply buf_len_as_init. eexists. exact E1. }
  pose proof (vclamp_mono v _ _ Hlc) as Hmono.
  assert (EI : as_init root_init (VUninit v b) r = Ok (voff v + b, l1 - b)).
  { cbn [as_init]. unfold r_as_init in E1. rewrite E1. cbn [rbind]. unfold sub_range.
    rewrite Nat.min_id. destruct (Nat.leb_spec b l1); [reflexivity|lia]. }
  split; [unfold r_as_init; rewrite EI; f_equal; f_equal; lia|].
  split; [|lia].
  unfold r_as_uninit. cbn [as_uninit]. unfold buf_len. rewrite EI. cbn [rbind snd].
  unfold r_as_uninit in E2. rewrite E2. cbn [rbind]. unfold sub_range. rewrite Nat.min_id.
  destruct (Nat.leb_spec b c1); [|lia]. cbn [rbind].
  destruct (Nat.leb_spec (l1 - b) (c1 - b)); [|lia]. f_equal. f_equal; lia.
Qed.

Theorem uninit_append r v b bs :
  rwf r -> pure v -> wf (VUninit v b) r -> vclamp v (rlen r) = rlen r ->
  length bs <= vclamp v (rcap r) - rlen r ->
  exists r',
    r_fill_adv (VUninit v b) bs r = Ok r' /\ rkind r' = rkind r /\
    rcells r' = write_at (rcells r) (rlen r) bs /\
    rlen r' = rlen r + length bs /\
    rwf r' /\ wf (VUninit v b) r' /\ vclamp v (rlen r') = rlen r' /\
    r_as_init (VUninit v b) r' = Ok (voff v + b, rlen r + length bs - (voff v + b)) /\
    r_as_uninit (VUninit v b) r' = Ok (rlen r + length bs, vclamp v (rcap r) - (rlen r + length bs)).
Proof.
  intros Hr Hp Hw Hopen Hk.
  destruct (uninit_char v b r Hr Hp Hw Hopen) as (EI & EU & Hlo & Hhi).
  pose proof Hr as [Hlc Harr]. pose proof (vclamp_le v (rcap r)) as Hcap.
  assert (Hfit : rlen r + length bs <= rcap r) by lia.
  destruct (root_write_props r (rlen r) bs Hfit) as (W1 & W2 & W3).
  unfold r_fill_adv. rewrite EU. cbn [rbind fst].
  set (r1 := root_write (rlen r) bs r) in *.
  assert (Hr1 : rwf r1) by (split; [lia|rewrite W3, W1, W2; exact Harr]).
  unfold r_advance, advance.
  assert (EL : r_buf_len (VUninit v b) r1 = Ok (rlen r - (voff v + b))).
  { rewrite (buf_len_ext _ r r1 W1). apply buf_len_as_init. eexists. exact EI. }
  rewrite EL. cbn [rbind].
  pose proof (set_len_char (VUninit v b) (rlen r - (voff v + b) + length bs) r1) as ES.
  unfold r_set_len in ES. rewrite ES. cbn [voff].
  replace (voff v + b + (rlen r - (voff v + b) + length bs)) with (rlen r + length bs) by lia.
  rewrite (root_set_len_ge r1 (rlen r + length bs) Hr1) by lia.
  set (r2 := with_len r1 (rlen r + length bs)).
  assert (R2 : rlen r2 = rlen r + length bs) by reflexivity.
  assert (C2 : rcap r2 = rcap r) by (unfold r2, with_len, rcap; cbn; exact W2).
  assert (Hr2 : rwf r2).
  { split; [rewrite R2, C2; lia|]. intros K. change (rkind r2) with (rkind r1) in K.
    rewrite W3 in K. specialize (Harr K). lia. }
  assert (Hw2 : wf (VUninit v b) r2) by (apply (wf_mono _ r); [rewrite R2; lia|exact Hw]).
  assert (Hopen2 : vclamp v (rlen r2) = rlen r2).
  { rewrite R2. apply (vclamp_fix v _ (rcap r)). lia. }
  destruct (uninit_char v b r2 Hr2 Hp Hw2 Hopen2) as (EI2 & EU2 & _ & _).
  rewrite R2 in EI2. rewrite R2, C2 in EU2.
  exists r2. split; [reflexivity|]. split; [exact W3|]. split; [reflexivity|].
  split; [exact R2|]. split; [exact Hr2|]. split; [exact Hw2|]. split; [exact Hopen2|].
  split; assumption.
Qed.

(* ---------------------------------------------------------------------- *)
(* VectoredBufIter as the default read_vectored uses it: skip the members of
   capacity 0, fill the first one with room once                              *)

Lemma nth_init_ranges pre m post : forall i,
  nth_error (init_ranges i (pre ++ m :: post)) (length pre) = Some (i + length pre, 0, rlen m).
Proof.
  induction pre as [|x pre IH]; intros i; cbn [app length init_ranges nth_error].
  - rewrite Nat.add_0_r. reflexivity.
  - rewrite IH. do 3 f_equal. lia.
Qed.

Lemma nth_uninit_ranges pre m post : forall i,
  nth_error (uninit_ranges i (pre ++ m :: post)) (length pre) = Some (i + length pre, 0, rcap m).
Proof.
  induction pre as [|x pre IH]; intros i; cbn [app length uninit_ranges nth_error].
  - rewrite Nat.add_0_r. reflexivity.
  - rewrite IH. do 3 f_equal. lia.
Qed.

Lemma default_set_len_skip pre : forall l k,
  Forall rwf pre -> Forall (fun x => rcap x = 0) pre -> k <> 0 ->
  default_set_len (pre ++ l) k = let! l' := default_set_len l k in Ok (pre ++ l').
Proof.
  induction pre as [|x pre IH]; intros l k Hwf Hz Hk; cbn [app].
  - destruct (default_set_len l k); reflexivity.
  - inversion Hwf as [|? ? Hx Hwf']; subst. inversion Hz as [|? ? Hx0 Hz']; subst.
    cbn [default_set_len]. destruct (Nat.eqb_spec k 0) as [|_]; [contradiction|].
    rewrite Hx0. cbn [Nat.min]. pose proof Hx as [Hlc _].
    rewrite (root_set_len_ge x 0 Hx) by lia. cbn [rbind].
    assert (Hwx : with_len x 0 = x) by (replace 0 with (rlen x) by lia; apply with_len_same).
    rewrite Hwx, Nat.sub_0_r. rewrite (IH l k Hwf' Hz' Hk).
    destruct (default_set_len l k); reflexivity.
Qed.

Theorem viter_first_fill pre m post bs :
  Forall rwf pre -> Forall (fun x => rcap x = 0) pre -> rwf m -> length bs <= rcap m ->
  let ms := pre ++ m :: post in
  let it := mkiter (length pre) (length ms) 0 0 in
  i_as_init WBase VBase (it, ms) = Ok (0, rlen m) /\
  i_as_uninit WBase VBase (it, ms) = Ok (0, rcap m) /\
  exists it',
    i_fill CList WBase VBase bs (it, ms) =
      Ok (it', pre ++ mkroot (rkind m) (write_at (rcells m) 0 bs)
                             (Nat.max (rlen m) (length bs)) (rlim m) :: post).
Proof.
  intros Hpre Hz Hm Hk ms it. pose proof Hm as [Hlc _].
  assert (EI : forall post' m', viter_init WBase it (pre ++ m' :: post') = Ok (length pre, 0, rlen m')).
  { intros post' m'. unfold viter_init. cbn [iter_slice rbind it it_index it_filled].
    rewrite nth_init_ranges. cbn [Nat.leb]. rewrite Nat.add_0_r, Nat.sub_0_r. reflexivity. }
  assert (EU : forall post' m', viter_uninit WBase it (pre ++ m' :: post') = Ok (length pre, 0, rcap m')).
  { intros post' m'. unfold viter_uninit. cbn [iter_uninit rbind it it_index].
    rewrite nth_uninit_ranges. reflexivity. }
  assert (AI : forall post' m', i_as_init WBase VBase (it, pre ++ m' :: post') = Ok (0, rlen m')).
  { intros. unfold i_as_init. cbn [as_init]. unfold i_base_init. cbn [fst snd]. rewrite EI. reflexivity. }
  assert (AU : i_as_uninit WBase VBase (it, ms) = Ok (0, rcap m)).
  { unfold i_as_uninit. cbn [as_uninit]. unfold i_base_uninit. cbn [fst snd]. unfold ms. rewrite EU. reflexivity. }
  split; [apply AI|]. split; [exact AU|].
  unfold i_fill. rewrite AU. cbn [rbind fst snd]. unfold ms at 1. rewrite EU. cbn [rbind fst snd].
  unfold ms. rewrite write_member_app.
  set (m1 := root_write 0 bs m).
  assert (Hfit : 0 + length bs <= rcap m) by lia.
  destruct (root_write_props m 0 bs Hfit) as (W1 & W2 & W3). fold m1 in W1, W2, W3.
  assert (Hm1 : rwf m1) by (destruct Hm as [A B]; split; [lia|rewrite W3, W1, W2; exact B]).
  unfold i_advance_to, advance_to, buf_len.
  pose proof (AI post m1) as AI1. unfold i_as_init in AI1. rewrite AI1. cbn [rbind snd].
  destruct (Nat.ltb_spec (rlen m1) (length bs)) as [Hlt|Hge].
  - cbn [set_len]. unfold viter_set_len. cbn [vset_len container_set_len it it_tf Nat.add].
    rewrite (default_set_len_skip pre (m1 :: post) (length bs) Hpre Hz) by lia.
    cbn [default_set_len]. destruct (Nat.eqb_spec (length bs) 0) as [|_]; [lia|].
    rewrite W2. rewrite Nat.min_r by lia.
    rewrite (root_set_len_ge m1 (length bs) Hm1) by lia. cbn [rbind].
    rewrite Nat.sub_diag, default_set_len_0. cbn [rbind].
    eexists. f_equal. f_equal. f_equal. f_equal.
    unfold with_len, m1, root_write, with_cells. cbn. f_equal. lia.
  - eexists. f_equal. f_equal. f_equal. f_equal.
    unfold m1, root_write, with_cells. cbn. f_equal. cbn in Hge. lia.
Qed.

(* ---------------------------------------------------------------------- *)
(* Slice<Slice<T>>::flatten denotes the same view                           *)

Definition flat_end (b1 : nat) (e1 e2 : option nat) : option nat :=
  match e2, e1 with
  | Some s, Some l => Some (Nat.min (b1 + s) l)
  | Some s, None => Some (b1 + s)
  | None, l => l
  end.

Lemma sub_range_compose rg b1 e1 b2 e2 :
  rbind (sub_range rg b1 e1) (fun rg1 => sub_range rg1 b2 e2)
  = sub_range rg (b1 + b2) (flat_end b1 e1 e2).
Proof.
  destruct rg as [o l]. unfold sub_range at 1.
  destruct (Nat.leb_spec b1 (Nat.min (match e1 with Some x => x | None => l end) l)) as [H1|H1];
    cbn [rbind]; unfold sub_range, flat_end; destruct e1 as [x1|], e2 as [x2|];
    repeat match goal with |- context [?a <=? ?b] => destruct (Nat.leb_spec a b) end;
    try lia; try reflexivity; f_equal; f_equal; lia.
Qed.

Theorem flatten_same_view v v' :
  flatten_view v = Some v' -> forall r,
  r_as_init v' r = r_as_init v r /\ r_as_uninit v' r = r_as_uninit v r /\
  (forall k, r_set_len v' k r = r_set_len v k r) /\
  (wf v r -> wf v' r) /\ (pure v -> pure v') /\
  (uninit_filled v' r <-> uninit_filled v r).
Proof.
  destruct v as [|[|v0 b1 e1|] b2 e2|]; cbn [flatten_view]; try discriminate.
  intros E r. inversion E; subst v'. clear E. fold (flat_end b1 e1 e2).
  unfold r_as_init, r_as_uninit, r_set_len.
  split; [|split; [|split; [|split; [|split]]]].
  - cbn [as_init]. destruct (as_init root_init v0 r) as [rg|c]; cbn [rbind]; [|reflexivity].
    symmetry. apply sub_range_compose.
  - cbn [as_uninit]. destruct (as_uninit root_init root_uninit v0 r) as [rg|c]; cbn [rbind]; [|reflexivity].
    symmetry. apply sub_range_compose.
  - intros k. cbn [set_len]. f_equal. lia.
  - cbn [wf]. intros ((Hw0 & (l0 & Hl0 & Hb1) & He1) & (l1 & Hl1 & Hb2) & He2).
    split; [exact Hw0|].
    apply buf_len_as_init in Hl1. destruct Hl1 as [o1 Hl1]. unfold r_as_init in Hl1. cbn [as_init] in Hl1.
    apply buf_len_as_init in Hl0. destruct Hl0 as [o0 Hl0]. unfold r_as_init in Hl0.
    rewrite Hl0 in Hl1. cbn [rbind] in Hl1. apply sub_range_ok in Hl1. destruct Hl1 as (Hb & _ & ->).
    unfold rel_end in *. split.
    + exists l0. split; [apply buf_len_as_init; eexists; exact Hl0|]. destruct e1; lia.
    + unfold flat_end. destruct e1, e2; lia.
  - cbn [pure]. auto.
  - cbn [uninit_filled]. tauto.
Qed.

(* ---------------------------------------------------------------------- *)
(* pool buffers: BufferRef::set_capacity                                    *)

Theorem pool_set_capacity_spec r n :
  rkind r = KPool -> rwf r ->
  let r' := pool_set_capacity n r in
  let full := length (rcells r) in
  rkind r' = KPool /\ rcells r' = rcells r /\
  (n = 0%N -> r' = r) /\
  (n <> 0%N ->
     rcap r' = Nat.min (N.to_nat n) full /\ rlen r' = Nat.min (rlen r) (rcap r')) /\
  rwf r' /\ rcap r' <= full.
Proof.
  intros K [Hlc _]. cbn zeta. unfold pool_set_capacity. rewrite K.
  destruct (N.eqb_spec n 0) as [->|Hn].
  - repeat split; auto; try congruence. apply rcap_le_cells.
  - set (c := N.to_nat (N.min n (N.of_nat (length (rcells r))))).
    assert (Hc : c = Nat.min (N.to_nat n) (length (rcells r))) by (unfold c; lia).
    assert (Hcap : rcap (mkroot KPool (rcells r) (Nat.min (rlen r) c) c) = c)
      by (unfold rcap; cbn; lia).
    split; [reflexivity|]. split; [reflexivity|]. split; [intros; contradiction|].
    split; [intros _; rewrite Hcap; split; [exact Hc|reflexivity]|].
    split; [|rewrite Hcap; lia].
    split; [rewrite Hcap; cbn; lia|discriminate].
Qed.

(* ---------------------------------------------------------------------- *)
(* reserve / extend_from_slice                                             *)

Definition fixed_kind (k : kind) : bool :=
  match k with KArray | KArrayVec | KPool => true | _ => false end.

Fixpoint noendb (v : view) : bool :=
  match v with
  | VBase => true
  | VSlice v _ None => noendb v
  | VSlice _ _ (Some _) => false
  | VUninit v _ => noendb v
  end.

Lemma canaries_from_length n : forall i, length (canaries_from i n) = n.
Proof. induction n as [|n IH]; intros i; cbn [canaries_from length]; [reflexivity|]. rewrite IH. reflexivity. Qed.

Lemma pow2_from_ge fuel : forall p n, n <= p * 2 ^ fuel -> n <= pow2_from fuel p n.
Proof.
  induction fuel as [|f IH]; intros p n H; cbn [pow2_from].
  - cbn in H. lia.
  - destruct (Nat.leb_spec n p); [assumption|]. apply IH. cbn [Nat.pow] in H. lia.
Qed.

Lemma next_pow2_ge n : n <= next_pow2 n.
Proof.
  unfold next_pow2. apply pow2_from_ge. pose proof (Nat.pow_gt_lin_r 2 n ltac:(lia)). lia.
Qed.

Lemma root_grow_props r newcap :
  rlen r <= length (rcells r) -> rlen r <= newcap ->
  rkind (root_grow r newcap) = rkind r /\ rlen (root_grow r newcap) = rlen r /\
  rlim (root_grow r newcap) = rlim r /\
  length (rcells (root_grow r newcap)) = newcap /\
  firstn (rlen r) (rcells (root_grow r newcap)) = firstn (rlen r) (rcells r).
Proof.
  intros H1 H2. unfold root_grow. cbn [rkind rlen rlim rcells].
  assert (Hf : length (firstn (rlen r) (rcells r)) = rlen r) by (rewrite firstn_length; lia).
  repeat split.
  - rewrite app_length, Hf, canaries_from_length. lia.
  - apply firstn_app_exact0. exact Hf.
Qed.

(* IoBufMut::reserve on a root: fixed-capacity buffers answer Ok iff the request
   fits into capacity - length and never change; growable ones make room; the
   initialised bytes and the length are never touched *)
Theorem root_reserve_spec r k :
  rwf r ->
  exists res r',
    root_reserve k r = Ok (res, r') /\ rkind r' = rkind r /\ rlen r' = rlen r /\
    firstn (rlen r) (rcells r') = firstn (rlen r) (rcells r) /\ rwf r' /\
    (res = RsOk -> rlen r' + k <= rcap r') /\
    (fixed_kind (rkind r) = true -> r' = r /\ (res = RsOk <-> k <= rcap r - rlen r)) /\
    (fixed_kind (rkind r) = false -> res = RsOk).
Proof.
  intros [Hlc Harr]. unfold root_reserve.
  assert (G : forall newcap, fixed_kind (rkind r) = false -> rlen r + k <= newcap ->
     exists res r', Ok (RsOk, root_grow r newcap) = Ok (res, r') /\ rkind r' = rkind r /\ rlen r' = rlen r /\
       firstn (rlen r) (rcells r') = firstn (rlen r) (rcells r) /\ rwf r' /\
       (res = RsOk -> rlen r' + k <= rcap r') /\
       (fixed_kind (rkind r) = true -> r' = r /\ (res = RsOk <-> k <= rcap r - rlen r)) /\
       (fixed_kind (rkind r) = false -> res = RsOk)).
  { intros newcap Hfx Hn. pose proof (rcap_le_cells r) as Hc.
    destruct (root_grow_props r newcap ltac:(lia) ltac:(lia)) as (K & L & M & C & F).
    assert (Hcap : rcap (root_grow r newcap) = newcap).
    { unfold rcap. rewrite K, C. destruct (rkind r); try reflexivity; discriminate. }
    exists RsOk, (root_grow r newcap). split; [reflexivity|]. split; [exact K|]. split; [exact L|].
    split; [exact F|]. split.
    { split; [rewrite L, Hcap; lia|]. rewrite K. intros KA. rewrite KA in Hfx. discriminate. }
    split; [intros _; rewrite L, Hcap; lia|]. split; [intros H; rewrite H in Hfx; discriminate|reflexivity]. }
  assert (Same : forall res, (res = RsOk -> k <= rcap r - rlen r) ->
     (fixed_kind (rkind r) = true -> (res = RsOk <-> k <= rcap r - rlen r)) ->
     (fixed_kind (rkind r) = false -> res = RsOk) ->
     exists res0 r', Ok (res, r) = Ok (res0, r') /\ rkind r' = rkind r /\ rlen r' = rlen r /\
       firstn (rlen r) (rcells r') = firstn (rlen r) (rcells r) /\ rwf r' /\
       (res0 = RsOk -> rlen r' + k <= rcap r') /\
       (fixed_kind (rkind r) = true -> r' = r /\ (res0 = RsOk <-> k <= rcap r - rlen r)) /\
       (fixed_kind (rkind r) = false -> res0 = RsOk)).
  { intros res H1 H2 H3. exists res, r. repeat split; auto; try (intros; specialize (H1 ltac:(assumption)); lia);
      try (apply H2; assumption). }
  destruct (rkind r) eqn:K; cbn [fixed_kind] in *.
  - destruct (Nat.leb_spec k (rcap r - rlen r)).
    + apply Same; try tauto; intros; try discriminate; reflexivity.
    + apply G; [reflexivity|unfold grow_vec; lia].
  - unfold usub. destruct (Nat.leb_spec (rlen r) (rcap r)); [|lia]. cbn [rbind].
    destruct (Nat.leb_spec k (rcap r - rlen r)); apply Same; intros; try discriminate; try tauto; try lia;
      split; intros; try discriminate; try lia; reflexivity.
  - unfold usub. destruct (Nat.leb_spec (rlen r) (rcap r)); [|lia]. cbn [rbind].
    destruct (Nat.leb_spec k (rcap r - rlen r)); apply Same; intros; try discriminate; try tauto; try lia;
      split; intros; try discriminate; try lia; reflexivity.
  - destruct (Nat.leb_spec k (rcap r - rlen r)).
    + apply Same; try tauto; intros; try discriminate; reflexivity.
    + apply G; [reflexivity|apply next_pow2_ge].
  - destruct (Nat.leb_spec k (rcap r - rlen r)).
    + apply Same; try tauto; intros; try discriminate; reflexivity.
    + apply G; [reflexivity|unfold grow_vec; lia].
  - unfold usub. destruct (Nat.leb_spec (rlen r) (rcap r)); [|lia]. cbn [rbind].
    destruct (Nat.leb_spec k (rcap r - rlen r)); apply Same; intros; try discriminate; try tauto; try lia;
      split; intros; try discriminate; try lia; reflexivity.
Qed.
